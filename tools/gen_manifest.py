#!/venv/bin/python
"""Regenerates /verif/MANIFEST.json from the table below (kept in one place so
the manifest is always valid)."""
import json
import os

HERE = os.path.dirname(os.path.dirname(os.path.abspath(__file__)))

# id -> (technique, level text, level note, design ref)
CLAIMED = {
    "C01": (
        "skeleton parse + typed Jinja access paths + name binding (ast / jinja parse trees)",
        "Structural necessary conditions decided for every input at once: every covering guard valuation of every "
        "template that emits Python parses; every schema accessor, filter, test, include and macro call used by a "
        "template resolves against the repository's class table; literal names are bound in each consistent variant; "
        "transport gating and registry keys agree with the generator's skip predicate. Behavioural remainder "
        "(alias/collision binding on concrete inputs, installed dependencies) is not claimed.",
        "Trusted: jinja2's lexer/parser, CPython's ast.parse, the atom-constraint table in vlib/constraints.py "
        "(each row justified by a Python construct and re-checked).",
        "DESIGN.md 4/C01"),
    "C02": (
        "slot agreement on skeletons of types/%proto.py.j2 + ast checks of the schema loaders",
        "Decides, for every covering valuation, which schema accessor fills every slot of every emitted field / map / "
        "enum / manifest declaration and that the declaring loops are unfiltered; plus the Python derivations of "
        "proto_type, Field.name and the field loaders. The byte/JSON round trip (proto-plus run-time) is not claimed.",
        "Trusted: jinja2 parser, ast; proto-plus semantics of Field/RepeatedField/MapField keywords.",
        "DESIGN.md 4/C02"),
    "C03": (
        "slot + path rules on skeletons of grpc transports, base transport and both clients",
        "Decides stub construction slots (path, arity accessor, serializer/deserializer of the declared types, caching "
        "key), sibling agreement sync/asyncio, dispatch-key agreement across transport table and clients, and the "
        "single-call path with pass-through retry/timeout/metadata, response/await guards and request coercion arms. "
        "Wire decoding and gRPC semantics are not claimed.",
        "Trusted: jinja2 parser, ast; grpc / api_core behaviour.",
        "DESIGN.md 4/C03"),
    "C04": (
        "slot / guard / path rules on REST transport skeletons + finite-model decision of try_parse_http_rule + name-space (PY/WIRE spelling) typing of the query/path/body split + regex-AST rules",
        "Decides that every binding is emitted in order with verb, uri and body-iff-body, that transcoding receives the binding "
        "table and the protobuf form of the request, that body/query JSON and $alt follow the numeric-enum option, that required "
        "query fields get defaults keyed by JSON names, that errors raise before the reply is parsed with ignore_unknown_fields "
        "into the declared type, that methods without a binding raise NotImplementedError, and that the path-variable regexes "
        "cannot swallow later variables, and that the query/path/body split never compares a Python-spelled field name with a proto-spelled one "
        "(two-point type system, vlib/namespaces.py). Losslessness of transcoding itself is api_core's and is not claimed.",
        "Trusted: google.api_core.path_template.transcode, protobuf json_format.",
        "DESIGN.md 4/C04"),
    "C05": (
        "signature / dominance / per-shape application rules on client skeletons + ast pattern checks of _fields_mapping",
        "Decides that flattened parameters are keyword-only in declared order, that the ValueError check tests `is not None` "
        "over all flattened parameters and dominates the call and every request write (skeleton CFG), and that every "
        "flattened field is applied exactly once under the right guard in each feasible (repeated, map, package) shape, in "
        "both siblings. Wire equality of the two calling styles per value is not claimed.",
        "Trusted: jinja2 parser, ast; proto-plus field assignment semantics.",
        "DESIGN.md 4/C05"),
    "C06": (
        "dominance + slot rules on the inlined routing block of both client skeletons; ast pattern checks of field_headers / to_regex",
        "Decides that the routing block dominates the call, that explicit parameters are applied in declared order through the "
        "anchored RoutingParameter.to_regex() with one key tested and stored, that the header is appended only when something "
        "matched, that implicit routing pairs the raw name with the disambiguated attribute for every variable of the first "
        "non-empty HTTP verb, and that REST forwards metadata as headers. The regex language over arbitrary strings is not claimed.",
        "Trusted: api_core routing_header.to_grpc_metadata (URL-encoding); Python re semantics.",
        "DESIGN.md 4/C06"),
    "C07": (
        "classification-table pattern rules (ast) + control-flow / who-may-write rules on pager skeletons + wiring slots",
        "Decides the AIP-4233 classification table on Method.paged_result_field (each lookup is type-checked on the very field "
        "looked up; first repeated field; None otherwise), the page loop's shape and statement order in every pager class "
        "(sync/async, list/map), that only page_token is ever written to the copied request, and the client wiring and naming. "
        "Behaviour over concrete page histories follows by reading and is not mechanised.",
        "Trusted: generator semantics of yield / async for.",
        "DESIGN.md 4/C07"),
    "C08": (
        "raise-dominance on the Python CFG + call-graph reachability + pass-order and from_gapic slot rules",
        "Decides that _maybe_get_lro is extension-gated and rejects a missing type name before building OperationInfo, that both "
        "names resolve relative to the service and are looked up in the union of all files' messages (two-pass loading in "
        "API.build, order and exhaustiveness), that from_gapic receives response type and metadata type un-swapped from the "
        "transport's own operations client, and that operations_client exists iff has_lro. Polling histories are api_core's.",
        "Trusted: api_core operation futures.",
        "DESIGN.md 4/C08"),
    "C09": (
        "key->field->slot tables: ast pattern matching of _get_retry_and_timeout + keyword slots of wrapped-method tables",
        "Decides the selector and first-match lookup, the service-config key to RetryInfo field table, unit conversion, the "
        "hand-over to Method(retry=, timeout=), and that every api_core Retry / wrap_method keyword in the sync and async "
        "transport tables is fed from the matching accessor under the matching guard. Retry timing is api_core's and is not claimed.",
        "Trusted: api_core Retry keyword semantics; grpc service_config RetryPolicy key names.",
        "DESIGN.md 4/C09"),
    "C10": (
        "order-taint dataflow over Python ast + typed template access paths; call-graph reachability of ambient inputs",
        "Whole property under the stated container assumption: every set-derived order is sorted with an injective key "
        "or consumed order-insensitively before it can reach emitted text, in Python and in every template access path; "
        "no clock/RNG/environment/cwd/identity value is reachable from the generator; serialisers sort keys.",
        "Assumes dict / protobuf container iteration is insertion-ordered and third-party serialisers are deterministic.",
        "DESIGN.md 4/C10"),
    "C11": (
        "abstract evaluation of the extracted replace chain on the template tree; CFG dominance; set computations; regex-AST shape; raise-freedom",
        "Decides the substitution order and sources of _get_filename and that every on-disk template path maps to a normalised relative "
        "name for every empty/non-empty variable choice; private/empty skipping and dict-keyed accumulation; __init__ coverage of "
        "package directories; target-only iteration; the version regex shape (v<n>[p<n>][alpha|beta<n>]) and versioned module names; "
        "override order; proto3-optional flag dominance; and that the option loop cannot raise or mis-unpack.",
        "Assumes module names produced by to_snake_case / file-name sanitising are valid path segments.",
        "DESIGN.md 4/C11"),
    "C12": (
        "sibling cross-check of renaming sites against one predicate shape (ast patterns) + name-kind typing of identifier holes in skeletons",
        "Decides that every proto-name to Python-name site applies `x + '_' iff x in RESERVED_NAMES` over the one literal (so the ~70-word "
        "quantifier is discharged symbolically), that every Python keyword is in that list, that rpc / proto-file / module names avoid "
        "keywords and client internals, that no wire-spelled field accessor fills a Python identifier slot in any library skeleton, and "
        "that all renderers of the client method name agree. The executed word x position cross product is not run.",
        "Trusted: proto-plus attribute fallback `x` -> `x_` for non-keyword reserved names.",
        "DESIGN.md 4/C12"),
    "C14": (
        "f-string decomposition + regex literals matched against sample skeleton lines + Jinja-AST shape rules + ast patterns",
        "Decides the region-tag format and the enumeration of specs, that on every auto-generated calling form x transport profile the "
        "sample skeleton parses, uses async syntax exactly for the asyncio client and contains every marker line the snippet index "
        "reads, in order, inside the START/END tags; that both clients embed exactly full_snippet of the matching sample kind; that the "
        "metadata filler uses the accessors the templates print; that the import line is guarded for an empty namespace; and the "
        "default request shape (one member per oneof + required non-oneof fields). Running a sample is not claimed.",
        "Covers auto-generated samples only (CallingForm.method_default forms).",
        "DESIGN.md 4/C14"),
    "C15": (
        "ast pattern + def-use rules on API.gapic_metadata / legacy flattening; renderer agreement with client skeletons; fix-up table slots",
        "Decides the transport/class table, that every service x client x rpc is listed once (sorted, unfiltered), that the library "
        "method name is to_snake_case(client_method_name) - the very renderer the client templates use for `def` - on classes named "
        "by Service.client_name / async_client_name, the package names, and that the fix-up table lists every request field of every "
        "rpc with required fields first (partition keeps order).",
        "Trusted: protobuf MessageToJson; Jinja `sort`/`unique` filters.",
        "DESIGN.md 4/C15"),
    "C16": (
        "traversal exhaustiveness computed from dataclass annotations (ast) + visited-set discipline + comprehension-shape rules + must-pass-through + finite-model entailment of early-return guards",
        "Decides that the allow-list walk of every addressable wrapper adds its own address and descends into every field whose type can "
        "itself be allow-listed (listed exceptions with reasons), that a visited-set test is only ever on the node's own identity, that "
        "pruning filters exactly the four collections by membership and leaves dependencies alone, that selection is by fully-qualified "
        "name, that internal mode only flips is_internal, and that settings are validated before they are used.",
        "Trusted: dataclasses.replace semantics.",
        "DESIGN.md 4/C16"),
    "C17": (
        "normal-form rules on the selection code + constant folding of MIXINS_MAP (literal, comprehension or descriptor-derived) + agreement of every hand-written mixin block with it and the services' descriptors",
        "Decides the per-API selection flags, selector-based method selection, exact-name IAM overrides, that MIXINS_MAP equals the 10 "
        "methods and types of the three mixin services (descriptor data from googleapis-common-protos), and that in the sync client, "
        "asyncio client, gRPC / asyncio stubs and base transport every method has exactly one block under its own guard with the "
        "canonical path, request type, (de)serializers, routing field and lookup key; REST mixin loops; add-iam-methods exclusivity.",
        "Trusted: googleapis-common-protos descriptors.",
        "DESIGN.md 4/C17"),
    "C18": (
        "branch-wise ast pattern rules on the validator + shape/dominance rules on the inlined population block",
        "Decides that each AIP-4235 violation (duplicate, unknown, streaming, nested/missing, non-string, required, non-UUID4) has "
        "its own error branch over the raw YAML list and that errors raise; that the emitted block tests presence the right way "
        "for fields with and without explicit presence, stores str(uuid.uuid4()) into the same field, is the only writer, and "
        "dominates the call in both clients. RFC-4122 conformance of uuid4 is not claimed.",
        "Trusted: uuid.uuid4; proto-plus `in` semantics.",
        "DESIGN.md 4/C18"),
    "C19": (
        "construction-agreement rules (ast patterns) + regex-AST shape via re._parser + helper slot rules on client skeletons",
        "Decides that arguments, format string and parsing regex derive from one PATH_ARG_RE over the first pattern, that the parsing "
        "regex is '^' + a literal-preserving substitution + '$' whose groups are named lazy ANY+ repeats (with the `*` special "
        "case), and that the emitted <name>_path / parse_<name>_path pair and its asyncio aliases are filled from exactly those "
        "accessors. The inverse law over all segment values is a theorem about `re` and is not claimed.",
        "Trusted: Python re semantics for the checked regex shape.",
        "DESIGN.md 4/C19"),
    "C20": (
        "regex-AST analysis (re._parser) of fix_whitespace; CFG placement of sanitiser guards; text taint into string tokens of skeletons",
        "Decides that each substitution of fix_whitespace matches only whitespace outside groups it puts back in order (so tokens, line "
        "separation and indentation survive) and that the file ends with one newline; that rst() neutralises a trailing quote, embedded "
        "triple quotes and a trailing backslash on the value it returns, after its last modification, on every path; that every "
        "comment-derived hole in every library skeleton sits inside a raw string literal or comment and passes rst/wrap; and that "
        "textwrap never breaks words. Word preservation, width bound and idempotence over all strings are not claimed.",
        "Trusted: Python's re and textwrap; pandoc output is treated as opaque text that passes the same guards.",
        "DESIGN.md 4/C20"),
}

NOT_APPLICABLE = {
    "C13": "pass/fail of ~6k lines of rendered pytest logic against mocks is a run-time outcome no static argument "
           "in reach can bound; its static necessary conditions (test templates parse in every variant, every schema "
           "accessor they use exists) are decided under C01.1/C01.2.",
}

PENDING_REASON = "checker not yet armed in this revision (see DESIGN.md section 8, order of construction)"

ALL = [f"C{i:02d}" for i in range(1, 21)]


def main():
    checks = []
    for pid in ALL:
        if pid not in CLAIMED:
            continue
        tech, text, note, ref = CLAIMED[pid]
        checks.append({
            "property_id": pid,
            "quick_cmd": f"./vcheck {pid} --tier quick",
            "thorough_cmd": f"./vcheck {pid} --tier thorough",
            "evidence_file": f"/verif/evidence/{pid}.json",
            "replay_cmd_template": f"./vcheck {pid} --explain {{path}}",
            "engine": "vcheck",
            "level_claimed": {"category": "other", "text": text, "design_ref": ref},
            "level_note": note,
            "technique": "static analysis: " + tech + "; repository-specific bug-pattern rules (unused loop variable, stale loop-carried "
                         "state, per-iteration accumulator, shared visited set) over the property's mechanism functions (vlib/lints.py)",
        })
    na = []
    for pid in ALL:
        if pid in CLAIMED:
            continue
        na.append({"property_id": pid, "reason": NOT_APPLICABLE.get(pid, PENDING_REASON)})
    man = {
        "version": 1,
        "setup_cmd": "/venv/bin/python -m compileall -q vlib vcheck >/dev/null 2>&1; /venv/bin/python -c \"import jinja2, ast; print('ok')\"",
        "hooks": {
            "guard": "GOOGLEAPIS_GAPIC_GENERATOR_PYTHON_VERIF",
            "enable": "none needed: the analysis reads /repo's sources and never runs them; no instrumentation was added",
            "baseline_off_cmd": "cd /repo && /venv/bin/python -m pytest -ra -q -p no:cacheprovider --timeout=900 --continue-on-collection-errors",
            "source_commits": [],
            "add_only": True,
        },
        "engines": [
            {"name": "vcheck", "path": "/verif/vcheck", "serves_properties": sorted(CLAIMED),
             "kind_free_text": "repository-specific static analysers: Python ast model (class table, CFG, call graph), "
                               "Jinja parse-tree abstract renderer producing Python-with-holes skeletons, typed access "
                               "paths, order/text taint"},
        ],
        "checks": checks,
        "not_applicable": na,
        "notes": "Technique family: static analysis only. Checks never import or execute /repo code and never render a "
                 "template. Genuine defects found are listed in known_findings.json (fixed: with the /repo commit).",
    }
    with open(os.path.join(HERE, "MANIFEST.json"), "w") as f:
        json.dump(man, f, indent=1)
    print("MANIFEST.json written:", len(checks), "checks,", len(na), "not_applicable")


if __name__ == "__main__":
    main()
