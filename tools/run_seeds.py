#!/venv/bin/python
"""tools/run_seeds.py [seed ...] : apply each /verif/seeded/<seed>/patch.diff to /repo, run every registered quick
check (in parallel), undo the patch, and record which checks fire in meta.json. Prints the matrix."""
import json, os, subprocess, sys
seeds = sys.argv[1:] or sorted(os.listdir("/verif/seeded"))
man = json.load(open("/verif/MANIFEST.json"))
pids = [c["property_id"] for c in man["checks"]]
assert subprocess.run("git -C /repo status --porcelain", shell=True, capture_output=True, text=True).stdout.strip() == "", "/repo not clean"
for s in seeds:
    d = f"/verif/seeded/{s}"
    if not os.path.isfile(d + "/patch.diff"):
        continue
    r = subprocess.run(f"git -C /repo apply {d}/patch.diff", shell=True, capture_output=True, text=True)
    if r.returncode:
        print(s, "PATCH DOES NOT APPLY", r.stderr[:200]); continue
    try:
        procs = {p: subprocess.Popen(["/verif/vcheck", p, "--tier", "quick"], cwd="/verif", stdout=subprocess.PIPE, stderr=subprocess.STDOUT, text=True) for p in pids}
        res = {}
        for p, pr in procs.items():
            o, _ = pr.communicate()
            res[p] = (pr.returncode, [l.strip() for l in o.split("\n") if l.strip().startswith(("at ", "rule "))][:4])
    finally:
        subprocess.run("git -C /repo checkout -- .", shell=True)
    meta = json.load(open(d + "/meta.json"))
    meta["caught_by"] = sorted(p for p, v in res.items() if v[0] == 1)
    meta["analysis_errors"] = sorted(p for p, v in res.items() if v[0] == 2)
    meta["checks_with_change"] = {p: {"exit": v[0], "report": v[1]} for p, v in res.items() if v[0] != 0}
    json.dump(meta, open(d + "/meta.json", "w"), indent=1)
    print(f"{s:<10} property={meta['property']:<4} caught_by={meta['caught_by']} analysis_errors={meta['analysis_errors']}")
