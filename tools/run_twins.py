#!/venv/bin/python
"""tools/run_twins.py [twin ...] : apply each /verif/twins/<twin>/patch.diff (a behaviour-preserving refactoring verified byte-identical by
its demo) to /repo, run every registered quick check, undo the patch; every check must stay at exit 0. Records alarms in meta.json."""
import json, os, subprocess, sys
twins = sys.argv[1:] or sorted(os.listdir("/verif/twins"))
man = json.load(open("/verif/MANIFEST.json"))
pids = [c["property_id"] for c in man["checks"]]
assert subprocess.run("git -C /repo status --porcelain", shell=True, capture_output=True, text=True).stdout.strip() == "", "/repo not clean"
bad = 0
for t in twins:
    d = f"/verif/twins/{t}"
    if not os.path.isfile(d + "/patch.diff"):
        continue
    r = subprocess.run(f"git -C /repo apply {d}/patch.diff", shell=True, capture_output=True, text=True)
    if r.returncode:
        print(t, "PATCH DOES NOT APPLY", r.stderr[:200]); continue
    try:
        procs = {p: subprocess.Popen(["/verif/vcheck", p, "--tier", "quick"], cwd="/verif", stdout=subprocess.PIPE, stderr=subprocess.STDOUT, text=True) for p in pids}
        res = {}
        for p, pr in procs.items():
            o, _ = pr.communicate()
            res[p] = (pr.returncode, [l.strip() for l in o.split("\n") if l.strip().startswith(("at ", "rule ", "ANALYSIS-ERROR"))][:4])
    finally:
        subprocess.run("git -C /repo checkout -- .", shell=True)
    meta = json.load(open(d + "/meta.json"))
    meta["alarms_now"] = {p: {"exit": v[0], "report": v[1]} for p, v in res.items() if v[0] != 0}
    json.dump(meta, open(d + "/meta.json", "w"), indent=1)
    bad += bool(meta["alarms_now"])
    print(f"{t:<5} alarms={ {p: v['exit'] for p, v in meta['alarms_now'].items()} }")
sys.exit(1 if bad else 0)
