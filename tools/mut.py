#!/venv/bin/python
"""tools/mut.py <PID> <file-under-/repo> <old> <new> : apply one textual edit to /repo, run the check, revert.
Prints FIRED/SILENT and the first violation lines. For developing the checkers only."""
import subprocess, sys
pid, f, old, new = sys.argv[1:5]
p = "/repo/" + f
s = open(p).read()
if s.count(old) < 1:
    print("PATTERN NOT FOUND"); sys.exit(3)
open(p, "w").write(s.replace(old, new, 1))
try:
    r = subprocess.run(["/verif/vcheck", pid] + sys.argv[5:], capture_output=True, text=True, cwd="/verif")
    lines = [l for l in r.stdout.split("\n") if l.startswith(("VIOLATION", "ANALYSIS-ERROR", "    at", "    rule"))]
    print("FIRED" if r.returncode == 1 else ("ANALYSIS-ERROR" if r.returncode == 2 else "SILENT"), "rc=", r.returncode)
    for l in lines[:6]:
        print("   ", l[:260])
finally:
    subprocess.run(["git", "-C", "/repo", "checkout", "--", "."])
