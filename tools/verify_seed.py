#!/venv/bin/python
"""tools/verify_seed.py <seed-name> <property-id> [<out-dir> [<worktree>]]

Confirms a sub-agent's seeded defect (patch.diff + demo.py) in its scratch worktree, runs the
registered checks against /repo with the patch applied (and undoes it), stores the case under
/verif/seeded/<seed-name>/ with meta.json, and removes the worktree.
"""
import json
import os
import shutil
import subprocess
import sys
import time

name, pid = sys.argv[1], sys.argv[2]
out = sys.argv[3] if len(sys.argv) > 3 else f"/tmp/seed-out/{name}"
wt = sys.argv[4] if len(sys.argv) > 4 else f"/tmp/wt-{name}"
PY = "/venv/bin/python"


def sh(cmd, cwd=None, timeout=1500):
    r = subprocess.run(cmd, shell=True, cwd=cwd, capture_output=True, text=True, timeout=timeout)
    return r.returncode, (r.stdout + r.stderr)


patch = os.path.join(out, "patch.diff")
demo = os.path.join(out, "demo.py")
assert os.path.isfile(patch) and os.path.isfile(demo), "missing deliverables"
meta = {"seed": name, "property": pid, "verified_at": time.strftime("%Y-%m-%dT%H:%M:%SZ", time.gmtime())}
# 1. clean worktree: demo passes
sh("git checkout -- . && git clean -fdq", cwd=wt)
rc0, o0 = sh(f"{PY} {demo} {wt}", cwd="/tmp")
meta["demo_exit_without_change"] = rc0
# 2. with the change
rca, oa = sh(f"git apply {patch}", cwd=wt)
assert rca == 0, "patch does not apply: " + oa
rc1, o1 = sh(f"{PY} {demo} {wt}", cwd="/tmp")
meta["demo_exit_with_change"] = rc1
meta["demo_output_with_change_tail"] = o1.strip().split("\n")[-6:]
rct, ot = sh(f"{PY} -m pytest -q -p no:cacheprovider --timeout=900 --continue-on-collection-errors 2>&1 | tail -1", cwd=wt)
meta["pytest_tail_with_change"] = ot.strip().split("\n")[-1]
meta["files_changed"] = sh("git diff --stat | tail -1", cwd=wt)[1].strip()
sh("git checkout -- . && git clean -fdq", cwd=wt)
# 3. our checks against /repo with the patch applied
checks = {}
rc, o = sh(f"git -C /repo apply {patch}")
assert rc == 0, "patch does not apply to /repo: " + o
try:
    man = json.load(open("/verif/MANIFEST.json"))
    pids = [c["property_id"] for c in man["checks"]]
    procs = {p: subprocess.Popen(["/verif/vcheck", p, "--tier", "quick"], cwd="/verif", stdout=subprocess.PIPE,
                                 stderr=subprocess.STDOUT, text=True) for p in pids}
    for p, pr in procs.items():
        o, _ = pr.communicate()
        first = [l.strip() for l in o.split("\n") if l.strip().startswith(("at ", "rule "))][:4]
        checks[p] = {"exit": pr.returncode, "report": first}
finally:
    sh("git -C /repo checkout -- .")
meta["checks_with_change"] = {p: v for p, v in checks.items() if v["exit"] != 0}
meta["caught_by"] = sorted(p for p, v in checks.items() if v["exit"] == 1)
meta["analysis_errors"] = sorted(p for p, v in checks.items() if v["exit"] == 2)
meta["confirmed"] = (rc0 == 0 and rc1 != 0 and "609 passed" in meta["pytest_tail_with_change"])
notes = os.path.join(out, "notes.md")
meta["needs"] = ""
if os.path.isfile(notes):
    meta["notes_head"] = open(notes).read()[:1500]
dst = f"/verif/seeded/{name}"
os.makedirs(dst, exist_ok=True)
shutil.copy(patch, dst)
shutil.copy(demo, dst)
if os.path.isfile(notes):
    shutil.copy(notes, dst)
meta["what_i_ran"] = [
    f"{PY} demo.py <clean worktree>  -> exit {rc0}",
    f"git apply patch.diff; {PY} demo.py <worktree> -> exit {rc1}",
    f"pytest (baseline command) with the change -> {meta['pytest_tail_with_change']}",
    "git -C /repo apply patch.diff; ./vcheck <every claimed property> --tier quick; git -C /repo checkout -- .",
]
json.dump(meta, open(os.path.join(dst, "meta.json"), "w"), indent=1)
print(json.dumps({k: meta[k] for k in ("seed", "property", "confirmed", "demo_exit_without_change", "demo_exit_with_change",
                                        "pytest_tail_with_change", "caught_by", "analysis_errors")}, indent=1))
if meta["confirmed"]:
    sh(f"git -C /repo worktree remove --force {wt}")
    print("worktree removed")
