#!/venv/bin/python
"""tools/verify_twin.py <twin-name> <property-id> [<out-dir> [<worktree>]]

Confirms a sub-agent's behaviour-preserving refactoring (patch.diff + demo.py: byte-identical generator output on both
trees) in its scratch worktree, runs every registered check against /repo with the patch applied (and undoes it): all
must stay silent (exit 0). Stores the case under /verif/twins/<name>/ with meta.json and removes the worktree."""
import json
import os
import shutil
import subprocess
import sys
import time

name, pid = sys.argv[1], sys.argv[2]
out = sys.argv[3] if len(sys.argv) > 3 else f"/tmp/seed-out/{name}"
wt = sys.argv[4] if len(sys.argv) > 4 else f"/tmp/wt-{name}"
PY = "/venv/bin/python"


def sh(cmd, cwd=None, timeout=1800):
    r = subprocess.run(cmd, shell=True, cwd=cwd, capture_output=True, text=True, timeout=timeout)
    return r.returncode, (r.stdout + r.stderr)


patch, demo = os.path.join(out, "patch.diff"), os.path.join(out, "demo.py")
assert os.path.isfile(patch) and os.path.isfile(demo), "missing deliverables"
meta = {"twin": name, "property": pid, "verified_at": time.strftime("%Y-%m-%dT%H:%M:%SZ", time.gmtime())}
sh("git checkout -- . && git clean -fdq", cwd=wt)
rca, oa = sh(f"git apply {patch}", cwd=wt)
assert rca == 0, "patch does not apply: " + oa
rc1, o1 = sh(f"{PY} {demo} {wt}", cwd="/tmp")
meta["demo_exit_with_change"] = rc1
meta["demo_output_tail"] = o1.strip().split("\n")[-4:]
rct, ot = sh(f"{PY} -m pytest -q -p no:cacheprovider --timeout=900 --continue-on-collection-errors 2>&1 | tail -1", cwd=wt)
meta["pytest_tail_with_change"] = ot.strip().split("\n")[-1]
meta["files_changed"] = sh("git diff --stat | tail -1", cwd=wt)[1].strip()
sh("git checkout -- . && git clean -fdq", cwd=wt)
checks = {}
assert sh("git -C /repo status --porcelain")[1].strip() == "", "/repo not clean"
rc, o = sh(f"git -C /repo apply {patch}")
assert rc == 0, "patch does not apply to /repo: " + o
try:
    man = json.load(open("/verif/MANIFEST.json"))
    pids = [c["property_id"] for c in man["checks"]]
    procs = {p: subprocess.Popen(["/verif/vcheck", p, "--tier", "quick"], cwd="/verif", stdout=subprocess.PIPE,
                                 stderr=subprocess.STDOUT, text=True) for p in pids}
    for p, pr in procs.items():
        o, _ = pr.communicate()
        first = [l.strip() for l in o.split("\n") if l.strip().startswith(("at ", "rule ", "ANALYSIS-ERROR"))][:4]
        checks[p] = {"exit": pr.returncode, "report": first}
finally:
    sh("git -C /repo checkout -- .")
meta["alarms"] = {p: v for p, v in checks.items() if v["exit"] != 0}
meta["equivalent"] = (rc1 == 0 and "609 passed" in meta["pytest_tail_with_change"])
dst = f"/verif/twins/{name}"
os.makedirs(dst, exist_ok=True)
for f in (patch, demo, os.path.join(out, "notes.md")):
    if os.path.isfile(f):
        shutil.copy(f, dst)
json.dump(meta, open(os.path.join(dst, "meta.json"), "w"), indent=1)
print(json.dumps({k: meta[k] for k in ("twin", "property", "equivalent", "demo_exit_with_change", "pytest_tail_with_change", "alarms")}, indent=1))
sh(f"git -C /repo worktree remove --force {wt}")
print("worktree removed")
