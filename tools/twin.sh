#!/bin/bash
# tools/twin.sh <twin> <PID> [grep-pattern] : apply twins/<twin>/patch.diff to /repo, run one check, undo
t=$1; p=$2; pat=${3:-"VIOL|ERROR|rule |at gapic|construct"}
git -C /repo apply /verif/twins/$t/patch.diff || exit 3
/verif/vcheck $p --tier quick 2>&1 | grep -E "$pat" | cut -c1-400 | head -40
echo "exit=${PIPESTATUS[0]}"
git -C /repo checkout -- .
