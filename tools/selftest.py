#!/venv/bin/python
"""tools/selftest.py [--prop Cxx] [--jobs N] [--seeds] : run the self-test corpus (selftest/corpus.py) and the seeded
changes (seeded/*/patch.diff) against the checkers, each on its own scratch copy of /repo/gapic (never /repo itself),
with evidence redirected to the scratch directory. Mutants must make their check exit 1, twins must leave every
listed check at exit 0. Prints a table, writes selftest/last_run.json, exits 1 if any case misbehaves."""
import argparse, json, os, shutil, subprocess, sys, tempfile, time
from concurrent.futures import ThreadPoolExecutor

HERE = os.path.dirname(os.path.dirname(os.path.abspath(__file__)))
sys.path.insert(0, HERE)
from selftest.corpus import CASES  # noqa: E402

REPO = os.environ.get("VERIF_REPO", "/repo")
ALL = [c["property_id"] for c in json.load(open(os.path.join(HERE, "MANIFEST.json")))["checks"]]


def run_case(case, base):
    d = tempfile.mkdtemp(prefix=case["id"] + "-", dir=base)
    try:
        shutil.copytree(os.path.join(REPO, "gapic"), os.path.join(d, "gapic"), ignore=shutil.ignore_patterns("__pycache__"))
        if "patch" in case:
            r = subprocess.run(["patch", "-p1", "-s", "-i", case["patch"]], cwd=d, capture_output=True, text=True)
            if r.returncode:
                return dict(case=case["id"], ok=False, why="patch does not apply: " + (r.stdout + r.stderr)[:200], results={})
        else:
            f = os.path.join(d, "gapic", case["file"])
            s = open(f).read()
            for old, new in case.get("edits") or [(case["old"], case["new"])]:
                if s.count(old) < 1:
                    return dict(case=case["id"], ok=False, why="pattern not found (corpus is stale)", results={})
                s = s.replace(old, new, 1)
            open(f, "w").write(s)
        props = ALL if case["prop"] == "*" else [case["prop"]] + case.get("also", [])
        env = dict(os.environ, VERIF_REPO=d, VERIF_EVIDENCE_DIR=os.path.join(d, "evidence"))
        results = {}
        for p in props:
            r = subprocess.run([os.path.join(HERE, "vcheck"), p, "--tier", "quick"], cwd=HERE, env=env, capture_output=True, text=True)
            first = [l.strip() for l in r.stdout.split("\n") if l.strip().startswith(("rule ", "ANALYSIS-ERROR"))][:1]
            results[p] = (r.returncode, first[0][:140] if first else "")
        if case["kind"] == "mutant":
            ok = results[case["prop"]][0] == 1
        else:
            ok = all(rc == 0 for rc, _ in results.values())
        return dict(case=case["id"], kind=case["kind"], prop=case["prop"], ok=ok, results=results)
    finally:
        shutil.rmtree(d, ignore_errors=True)


def main():
    ap = argparse.ArgumentParser()
    ap.add_argument("--prop")
    ap.add_argument("--jobs", type=int, default=12)
    ap.add_argument("--seeds", action="store_true")
    ap.add_argument("--no-global-twins", action="store_true")
    a = ap.parse_args()
    cases = [c for c in CASES if a.prop in (None, c["prop"]) or (c["prop"] == "*" and not a.no_global_twins and a.prop is None)]
    if a.seeds or a.prop is None:
        sd = os.path.join(HERE, "seeded")
        for s in sorted(os.listdir(sd)):
            meta = json.load(open(os.path.join(sd, s, "meta.json")))
            if not os.path.isfile(os.path.join(sd, s, "patch.diff")):
                continue        # superseded seed (see its meta.json)
            if a.prop in (None, meta["property"]):
                cb = meta.get("caught_by") or []
                cases.append(dict(id="seed-" + s, kind="mutant", prop=meta["property"] if (meta["property"] in cb or not cb) else cb[0],
                                  patch=os.path.join(sd, s, "patch.diff")))
    # behaviour-preserving refactorings by independent agents (twins/): every check must stay silent on them
    td = os.path.join(HERE, "twins")
    if os.path.isdir(td):
        for t in sorted(os.listdir(td)):
            pf = os.path.join(td, t, "patch.diff")
            if not os.path.isfile(pf):
                continue
            meta = json.load(open(os.path.join(td, t, "meta.json")))
            if a.prop is None:
                cases.append(dict(id="agent-twin-" + t, kind="twin", prop="*", patch=pf))
            elif a.prop == meta["property"]:
                cases.append(dict(id="agent-twin-" + t, kind="twin", prop=a.prop, patch=pf))
    base = tempfile.mkdtemp(prefix="verif-selftest-")
    t0 = time.time()
    try:
        with ThreadPoolExecutor(a.jobs) as ex:
            out = list(ex.map(lambda c: run_case(c, base), cases))
    finally:
        shutil.rmtree(base, ignore_errors=True)
    bad = [o for o in out if not o["ok"]]
    for o in out:
        flag = "ok  " if o["ok"] else "FAIL"
        res = " ".join(f"{p}={rc}" for p, (rc, _) in o["results"].items() if rc != 0 or o.get("kind") == "mutant")
        print(f"{flag} {o.get('kind', '?'):<6} {o['case']:<32} {res} {o.get('why', '')}")
    summary = dict(cases=len(out), mutants=sum(1 for o in out if o.get("kind") == "mutant"), twins=sum(1 for o in out if o.get("kind") == "twin"),
                   failed=[o["case"] for o in bad], wall_s=round(time.time() - t0, 1))
    print(json.dumps(summary))
    if a.prop is None:
        json.dump(dict(summary=summary, results=out), open(os.path.join(HERE, "selftest", "last_run.json"), "w"), indent=1)
    return 1 if bad else 0


if __name__ == "__main__":
    sys.exit(main())
