"""C04 demo (round d): REST calls must instantiate a *declared* google.api.http binding.

Usage: /venv/bin/python demo.py <path-to-a-checkout>

Builds a small API in code (descriptor_pb2 + google.api annotations) whose methods cover
get/post/patch/delete rules, an additional binding, a nested path variable, `*`/field/absent
bodies, required default-valued scalars and -- the interesting part -- request fields whose
proto names are Python reserved words (`object`, `class`, `type`, `format`, `license`), used as
path variables and as `body`.  The generator renames such fields (`object` -> `object_`) and
has to rewrite the http rule accordingly; the rewritten rule must still describe the very same
URL space as the rule written in the proto.

The library is generated (with and without rest-numeric-enums), imported, and its REST client
is driven against a recording session.  Every request that arrives is re-assembled from
verb + path + query + body, the way a server holding the ORIGINAL proto annotations would do it:

  * verb and path must instantiate one of the bindings declared in the proto,
  * the path variables, the body and the query parameters together must give back the request,
    nothing lost, nothing twice,
  * required scalars outside path/body must be in the query even when default-valued.

Exit status 0: property holds for all calls.  1: violated (findings are printed).
"""
import os
import sys

CHECKOUT = os.path.abspath(sys.argv[1])

# Make sure `gapic` comes from the checkout under test and from nowhere else: the virtualenv
# carries an editable install of another checkout (a meta-path finder + namespace path hook).
sys.meta_path[:] = [f for f in sys.meta_path if "__editable__" not in repr(f)]
sys.path_hooks[:] = [h for h in sys.path_hooks if "__editable__" not in repr(h)]
sys.path[:] = [CHECKOUT] + [
    p for p in sys.path
    if p and "__editable__" not in p
    and not os.path.isdir(os.path.join(p, "gapic", "schema"))
]
sys.path_importer_cache.clear()
for _name in [n for n in sys.modules if n == "gapic" or n.startswith("gapic.")]:
    del sys.modules[_name]

import gapic  # noqa: E402

_where = [os.path.abspath(p) for p in getattr(gapic, "__path__", [])]
assert _where == [os.path.join(CHECKOUT, "gapic")], f"gapic imported from {_where}"

import importlib  # noqa: E402
import json  # noqa: E402
import re  # noqa: E402
import tempfile  # noqa: E402
from unittest import mock  # noqa: E402

from google.api import annotations_pb2, client_pb2, field_behavior_pb2  # noqa: E402
from google.protobuf import descriptor_pb2 as d  # noqa: E402
from google.protobuf import json_format  # noqa: E402

from gapic.generator import Generator  # noqa: E402
from gapic.schema import api  # noqa: E402
from gapic.utils import Options  # noqa: E402

assert os.path.abspath(sys.modules["gapic.schema.wrappers"].__file__).startswith(CHECKOUT + os.sep)
assert os.path.abspath(sys.modules["gapic.utils.uri_conv"].__file__).startswith(CHECKOUT + os.sep)

REQUIRED = field_behavior_pb2.REQUIRED
DOUBLE, INT64, INT32, BOOL, STRING, MESSAGE, ENUM = 1, 3, 5, 8, 9, 11, 14
HOST = "example.googleapis.com"


# --------------------------------------------------------------------------- input
def add_message(f, name, fields):
    """fields: (name, type, required[, type_name])"""
    msg = f.message_type.add(name=name)
    for number, spec in enumerate(fields, 1):
        fname, ftype, required = spec[:3]
        fld = msg.field.add(name=fname, number=number, type=ftype, label=1)
        if len(spec) > 3:
            fld.type_name = spec[3]
        if required:
            fld.options.Extensions[field_behavior_pb2.field_behavior].append(REQUIRED)
    return msg


def build(numeric_enums):
    pkg = "google.demonum.v1" if numeric_enums else "google.demo.v1"
    f = d.FileDescriptorProto(name=pkg.replace(".", "/") + "/lib.proto", package=pkg, syntax="proto3")
    colour = f.enum_type.add(name="Colour")
    for i, n in enumerate(["COLOUR_UNSPECIFIED", "RED", "GREEN"]):
        colour.value.add(name=n, number=i)
    T = lambda n: f".{pkg}.{n}"  # noqa: E731

    add_message(f, "Thing", [("name", STRING, False), ("rating", INT32, False), ("colour", ENUM, False, T("Colour"))])

    # plain control: ordinary variable with a template
    add_message(f, "GetShelfRequest", [("name", STRING, True), ("page_size", INT32, True), ("view", STRING, False)])
    # reserved-word variable, template mentions the collection of the same name.  (The reserved-word
    # path fields are deliberately not REQUIRED: the unchanged generator already mishandles REQUIRED
    # reserved-word path fields in its required-defaults table, which is a different, known issue.)
    add_message(f, "GetObjectRequest", [("object", STRING, True), ("generation", INT64, True), ("colour", ENUM, False, T("Colour"))])
    # reserved-word variable, multi-segment template, `*` body
    add_message(f, "CreateClassRequest", [("class", STRING, False), ("thing", MESSAGE, False, T("Thing")), ("validate_only", BOOL, True)])
    # reserved-word variable + reserved-word field body + additional binding
    add_message(f, "UpdateFormatRequest", [("type", STRING, False), ("format", MESSAGE, True, T("Thing")), ("ratio", DOUBLE, True), ("zone", STRING, False)])
    # reserved-word variable without a template
    add_message(f, "DeleteLicenseRequest", [("license", STRING, True), ("force", BOOL, True)])
    # nested variable
    add_message(f, "RenameThingRequest", [("thing", MESSAGE, True, T("Thing")), ("new_name", STRING, True)])

    s = f.service.add(name="Lib")
    s.options.Extensions[client_pb2.default_host] = HOST

    def rpc(name, inp, verb, uri, body=None, more=()):
        m = s.method.add(name=name, input_type=T(inp), output_type=T("Thing"))
        rule = m.options.Extensions[annotations_pb2.http]
        setattr(rule, verb, uri)
        if body:
            rule.body = body
        for verb2, uri2, body2 in more:
            extra = rule.additional_bindings.add()
            setattr(extra, verb2, uri2)
            if body2:
                extra.body = body2

    rpc("GetShelf", "GetShelfRequest", "get", "/v1/{name=shelves/*}")
    rpc("GetObject", "GetObjectRequest", "get", "/v1/{object=objects/*}")
    rpc("CreateClass", "CreateClassRequest", "post", "/v1/{class=schools/*/classes/*}:create", body="*")
    rpc("UpdateFormat", "UpdateFormatRequest", "patch", "/v1/{type=types/*}/format", body="format",
        more=[("patch", "/v1/{type=zones/*/types/*}/format", "format")])
    rpc("DeleteLicense", "DeleteLicenseRequest", "delete", "/v1/licenses/{license}")
    rpc("RenameThing", "RenameThingRequest", "post", "/v1/{thing.name=things/*}:rename")

    opts = Options.build("transport=grpc+rest" + (",rest-numeric-enums" if numeric_enums else ""))
    schema = api.API.build([f], package=pkg, opts=opts)
    res = Generator(opts).get_response(schema, opts)
    return f, pkg, {fl.name: fl.content for fl in res.file}


CALLS = {
    "GetShelf": [dict(name="shelves/s1", page_size=0, view=""), dict(name="shelves/s1", page_size=7, view="FULL")],
    "GetObject": [dict(object_="objects/o1", generation=0), dict(object_="objects/o-2", generation=5, colour=2)],
    "CreateClass": [
        dict(class_="schools/s1/classes/c1", validate_only=False),
        dict(class_="schools/s1/classes/c1", thing=dict(name="n", rating=2, colour=1), validate_only=True),
    ],
    "UpdateFormat": [
        dict(type_="types/t1", format_=dict(name="f", colour=2), ratio=0.0),
        dict(type_="zones/z1/types/t1", format_=dict(name="f", rating=4), ratio=1.5, zone="z"),
    ],
    "DeleteLicense": [dict(license_="l1", force=False), dict(license_="l1", force=True)],
    "RenameThing": [dict(thing=dict(name="things/t1", rating=3), new_name=""), dict(thing=dict(name="things/t1"), new_name="x")],
}


# --------------------------------------------------------------------------- observation helpers
def uri_regex(uri):
    """`/v1/{a.b=shelves/*}/x/{c}` (as written in the proto) -> regex with one group per variable."""
    out, last, names = "", 0, []
    for mt in re.finditer(r"\{([\w.]+)(?:=([^}]+))?\}", uri):
        out += re.escape(uri[last:mt.start()])
        seg = "/".join(
            ".+" if p == "**" else "[^/]+" if p == "*" else re.escape(p)
            for p in (mt.group(2) or "*").split("/")
        )
        out += f"({seg})"
        names.append(mt.group(1))
        last = mt.end()
    out += re.escape(uri[last:])
    return re.compile("^" + out + "$"), names


def declared_bindings(method_pb):
    rule = method_pb.options.Extensions[annotations_pb2.http]
    for r in [rule] + list(rule.additional_bindings):
        verb = r.WhichOneof("pattern")
        yield verb, getattr(r, verb), r.body


def put(tree, dotted, value, where, problems):
    """Store value at the dotted json path; complain when something is already there."""
    *parents, leaf = dotted.split(".")
    node = tree
    for p in parents:
        node = node.setdefault(p, {})
        if not isinstance(node, dict):
            problems.append(f"{where} {dotted!r} collides with a scalar already received")
            return
    if leaf in node:
        problems.append(f"{where} {dotted!r} arrives twice (already have {node[leaf]!r})")
        return
    node[leaf] = value


def json_key(desc, proto_name):
    """json key of the (possibly renamed) python field that stands for proto field `proto_name`."""
    for cand in (proto_name, proto_name + "_"):
        if cand in desc.fields_by_name:
            return desc.fields_by_name[cand]
    raise KeyError(proto_name)


def coerce(desc, dotted, text):
    fd = None
    for part in dotted.split("."):
        fd = next((x for x in desc.fields if part in (x.json_name, x.name)), None)
        if fd is None:
            return text
        desc = fd.message_type
    if fd.type == fd.TYPE_BOOL:
        return {"true": True, "false": False}.get(text, text)
    if fd.type in (fd.TYPE_ENUM,):
        return int(text) if re.fullmatch(r"-?\d+", text) else text
    if fd.cpp_type in (fd.CPPTYPE_INT32, fd.CPPTYPE_INT64, fd.CPPTYPE_UINT32, fd.CPPTYPE_UINT64):
        return int(text)
    if fd.cpp_type in (fd.CPPTYPE_DOUBLE, fd.CPPTYPE_FLOAT):
        return float(text)
    return text


class FakeResponse:
    status_code = 200
    content = b'{"name": "things/reply", "rating": 3, "colour": "GREEN"}'
    headers = {"x-demo": "1"}


# --------------------------------------------------------------------------- run
def run(numeric_enums):
    problems = []
    fdp, pkg, files = build(numeric_enums)
    tmp = tempfile.mkdtemp(prefix="c04d-demo-")
    for name, content in files.items():
        if not name.endswith(".py") or name.startswith(("tests/", "docs/", "samples/", "scripts/")):
            continue
        path = os.path.join(tmp, name)
        os.makedirs(os.path.dirname(path), exist_ok=True)
        with open(path, "w") as fh:
            fh.write(content)
    import google

    google.__path__.append(os.path.join(tmp, "google"))
    mod = importlib.import_module(pkg.rsplit(".", 1)[0] + "_v1")
    from google.auth import credentials as ga_credentials

    client = mod.LibClient(credentials=ga_credentials.AnonymousCredentials(), transport="rest")
    session_cls = type(client.transport._session)

    for method_pb in fdp.service[0].method:
        mname = method_pb.name
        req_cls = getattr(mod, method_pb.input_type.rsplit(".", 1)[1])
        bindings = list(declared_bindings(method_pb))
        snake = re.sub(r"(?<!^)(?=[A-Z])", "_", mname).lower()
        for kwargs in CALLS[mname]:
            tag = f"[numeric_enums={'on' if numeric_enums else 'off'}] {mname}({kwargs})"
            request = req_cls(**kwargs)
            want = req_cls.pb(request)
            desc = want.DESCRIPTOR
            seen = []

            def record(verb):
                def _call(self_, url, **kw):
                    seen.append((verb, url, kw))
                    return FakeResponse()
                return _call

            patches = [mock.patch.object(session_cls, v, record(v), create=True)
                       for v in ("get", "put", "post", "delete", "patch")]
            for p in patches:
                p.start()
            try:
                reply = getattr(client, snake)(request=request)
            except Exception as exc:
                problems.append(f"{tag}: the call was refused although the request matches a declared "
                                f"binding: {type(exc).__name__}: {str(exc).splitlines()[0]} "
                                f"[emitted http options: {emitted_options(client, mname)}]")
                continue
            finally:
                for p in patches:
                    p.stop()

            if len(seen) != 1:
                problems.append(f"{tag}: {len(seen)} HTTP requests were sent")
                continue
            if not isinstance(reply, mod.Thing) or reply.rating != 3 or reply.colour != mod.Colour.GREEN:
                problems.append(f"{tag}: reply not decoded into the declared response type: {reply!r}")
            verb, url, kw = seen[0]
            path = url.split(HOST, 1)[1]

            # ---- verb + path instantiate a declared binding
            hit = None
            for bverb, buri, bbody in bindings:
                rx, names = uri_regex(buri)
                mt = rx.match(path)
                if mt and bverb == verb:
                    hit = (buri, bbody, dict(zip(names, mt.groups())))
                    break
            if hit is None:
                problems.append(f"{tag}: {verb.upper()} {path} instantiates none of the declared bindings "
                                f"{[(v, u) for v, u, _ in bindings]}")
                continue
            buri, bbody, path_vars = hit

            rebuilt = {}
            for var, value in path_vars.items():
                # translate proto names to the json keys of the emitted message
                keys, dsc = [], desc
                for part in var.split("."):
                    fd = json_key(dsc, part)
                    keys.append(fd.json_name)
                    dsc = fd.message_type
                put(rebuilt, ".".join(keys), value, f"{tag}: path variable", problems)

            # ---- body
            data = kw.get("data")
            if bbody:
                if data is None:
                    problems.append(f"{tag}: binding has body {bbody!r} but no body was sent")
                else:
                    body = json.loads(data)
                    if bbody == "*":
                        for k, v in body.items():
                            if isinstance(v, dict) and isinstance(rebuilt.get(k), dict):
                                for k2, v2 in v.items():
                                    put(rebuilt, f"{k}.{k2}", v2, f"{tag}: body field", problems)
                            else:
                                put(rebuilt, k, v, f"{tag}: body field", problems)
                    else:
                        put(rebuilt, json_key(desc, bbody).json_name, body, f"{tag}: body", problems)
            elif data not in (None, "", b""):
                problems.append(f"{tag}: binding has no body but {data!r} was sent")

            # ---- query
            alt = [v for k, v in kw["params"] if k == "$alt"]
            if numeric_enums and alt != ["json;enum-encoding=int"]:
                problems.append(f"{tag}: numeric enums requested but $alt is {alt}")
            if not numeric_enums and alt:
                problems.append(f"{tag}: unexpected $alt {alt}")
            for k, v in kw["params"]:
                if k.startswith("$"):
                    continue
                put(rebuilt, k, coerce(desc, k, v), f"{tag}: query parameter", problems)

            # ---- enum encoding
            def enum_check(node, dsc, prefix=""):
                for k, v in node.items():
                    fd = next((x for x in dsc.fields if k in (x.json_name, x.name)), None)
                    if fd is None:
                        continue
                    if fd.type == fd.TYPE_ENUM and isinstance(v, int) != numeric_enums:
                        problems.append(f"{tag}: enum {prefix + k} travels as {v!r}")
                    if fd.message_type is not None and isinstance(v, dict):
                        enum_check(v, fd.message_type, prefix + k + ".")
            enum_check(rebuilt, desc)

            # ---- required scalars outside path/body must be there even when default-valued
            for fd in desc.fields:
                opts_ = fd.GetOptions().Extensions[field_behavior_pb2.field_behavior]
                if REQUIRED in opts_ and fd.message_type is None and fd.json_name not in rebuilt:
                    problems.append(f"{tag}: required {fd.name!r} (default-valued) is sent nowhere")

            # ---- reconstruct
            try:
                got = json_format.ParseDict(rebuilt, type(want)())
            except Exception as exc:
                problems.append(f"{tag}: cannot re-assemble the request from {rebuilt}: {exc!r}")
                continue
            if got != want:
                problems.append(f"{tag}: re-assembled request differs: got {json_format.MessageToDict(got)} "
                                f"want {json_format.MessageToDict(want)}")
    return problems


def emitted_options(client, mname):
    try:
        stub = getattr(type(client.transport), "_" + mname)
        return [(o["method"], o["uri"], o.get("body")) for o in stub._get_http_options()]
    except Exception as exc:  # pragma: NO COVER
        return f"<unavailable: {exc!r}>"


def main():
    problems = []
    for numeric_enums in (False, True):
        problems += run(numeric_enums)
    if problems:
        print("PROPERTY C04 VIOLATED:")
        for line in problems:
            print("  -", line)
        return 1
    print("C04 holds: every call instantiated a declared binding and was re-assembled "
          "from path + query + body without loss or duplication")
    return 0


if __name__ == "__main__":
    sys.exit(main())
