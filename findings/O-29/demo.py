import sys, os
CHECKOUT=os.path.abspath(sys.argv[1])
sys.path[:] = [CHECKOUT] + [p for p in sys.path if "__editable__" not in p and os.path.abspath(p or ".") != "/repo"]
sys.meta_path[:] = [f for f in sys.meta_path if "editable" not in repr(f).lower() and "editable" not in type(f).__module__]
import gapic
assert os.path.abspath(list(gapic.__path__)[0]).startswith(CHECKOUT), gapic.__path__
from google.protobuf import descriptor_pb2 as d
from google.api import annotations_pb2, client_pb2
from gapic.schema import api
from gapic.generator import Generator
from gapic.utils import Options
import pypandoc
pypandoc.convert_text = lambda text, *a, **k: text
WORD = sys.argv[2] if len(sys.argv) > 2 else "type"
common = d.FileDescriptorProto(name="acme/common/v1/common.proto", package="acme.common.v1", syntax="proto3")
lr = common.message_type.add(name="LookupRequest")
lr.field.add(name=WORD, number=1, type=9, label=1)
lr.field.add(name="name", number=2, type=9, label=1)
pkg = "acme.jobs.v1"
f = d.FileDescriptorProto(name="acme/jobs/v1/jobs.proto", package=pkg, syntax="proto3", dependency=[common.name])
f.message_type.add(name="Job").field.add(name="name", number=1, type=9, label=1)
s = f.service.add(name="Jobs")
s.options.Extensions[client_pb2.default_host] = "jobs.example.com"
m = s.method.add(name="Lookup", input_type=".acme.common.v1.LookupRequest", output_type=".acme.jobs.v1.Job")
m.options.Extensions[client_pb2.method_signature].append(f"{WORD},name")
opts = Options.build("transport=grpc")
try:
    schema = api.API.build([common, f], package=pkg, opts=opts)
    res = Generator(opts).get_response(schema, opts)
    files = {x.name: x.content for x in res.file}
    c = files["acme/jobs_v1/services/jobs/client.py"]
    compile(c, "client.py", "exec")
    import re
    sig = re.search(r"def lookup\(self,.*?\) ->", c, re.S).group(0)
    ok = f"{WORD}: Optional[str]" in sig and f"request.{WORD} = {WORD}" in c
    print("OK" if ok else "flattened parameter not applied:\n" + sig)
    sys.exit(0 if ok else 1)
except Exception as e:
    print("GENERATION FAILED:", type(e).__name__, e)
    sys.exit(1)
