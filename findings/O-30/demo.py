"""O-30: two dependency (pb2) packages with a same-named proto file: both imports bind the same name."""
import sys, os, re
CHECKOUT=os.path.abspath(sys.argv[1])
sys.path[:] = [CHECKOUT] + [p for p in sys.path if "__editable__" not in p and os.path.abspath(p or ".") != "/repo"]
sys.meta_path[:] = [f for f in sys.meta_path if "editable" not in repr(f).lower() and "editable" not in type(f).__module__]
import gapic
assert os.path.abspath(list(gapic.__path__)[0]).startswith(CHECKOUT), gapic.__path__
from google.protobuf import descriptor_pb2 as d
from google.api import client_pb2
from gapic.schema import api
from gapic.generator import Generator
from gapic.utils import Options
import pypandoc
pypandoc.convert_text = lambda text, *a, **k: text
alpha = d.FileDescriptorProto(name="acme/alpha/types.proto", package="acme.alpha", syntax="proto3")
alpha.message_type.add(name="Thing").field.add(name="name", number=1, type=9, label=1)
beta = d.FileDescriptorProto(name="acme/beta/types.proto", package="acme.beta", syntax="proto3")
beta.message_type.add(name="Widget").field.add(name="name", number=1, type=9, label=1)
pkg = "acme.jobs.v1"
f = d.FileDescriptorProto(name="acme/jobs/v1/jobs.proto", package=pkg, syntax="proto3", dependency=[alpha.name, beta.name])
job = f.message_type.add(name="Job")
job.field.add(name="thing", number=1, type=11, label=1, type_name=".acme.alpha.Thing")
job.field.add(name="widget", number=2, type=11, label=1, type_name=".acme.beta.Widget")
s = f.service.add(name="Jobs")
s.options.Extensions[client_pb2.default_host] = "jobs.example.com"
s.method.add(name="GetJob", input_type=".acme.jobs.v1.Job", output_type=".acme.jobs.v1.Job")
opts = Options.build("transport=grpc")
schema = api.API.build([alpha, beta, f], package=pkg, opts=opts)
res = Generator(opts).get_response(schema, opts)
files = {x.name: x.content for x in res.file}
t = files["acme/jobs_v1/types/jobs.py"]
imports = re.findall(r"^from (\S+) import (\S+)(?: as (\S+))?", t, re.M)
bound = {}
bad = []
for pkg_, mod, alias in imports:
    name = alias or mod
    if name in bound and bound[name] != pkg_:
        bad.append(f"`{name}` is bound by imports from both {bound[name]} and {pkg_}")
    bound[name] = pkg_
for line in t.split("\n"):
    if "import" in line and "types_pb2" in line or "message=" in line: print("   ", line.strip())
if bad:
    print("C12 VIOLATED:", "; ".join(bad)); sys.exit(1)
print("OK"); sys.exit(0)
