"""Self-test corpus of the checkers (DESIGN.md section 7).

Each case is one textual edit of a scratch copy of /repo/gapic:
  kind "mutant": breaks the property named in `prop` while keeping the repository importable and its
                 pinned tests passing (almost always a template edit, which no test renders) -> the check must exit 1
  kind "twin":   behaviour-preserving edit (rename, re-wrap, reorder, comment) -> every listed check must stay silent
The seeded changes of the sub-agent rounds (/verif/seeded/*/patch.diff) are run by the same driver.
"""
S = "templates/%namespace/%name_%version/%sub/services/%service/"
T = "templates/%namespace/%name_%version/%sub/types/"

CASES = [
    # ---------------- C02
    dict(id="c02-number-off", prop="C02", kind="mutant", file=T + "_message.py.j2",
         old="number={{ field.number }},\n    {% if field.proto3_optional %}", new="number={{ field.number + 1 }},\n    {% if field.proto3_optional %}"),
    dict(id="c02-oneof-guard", prop="C02", kind="mutant", file=T + "_message.py.j2",
         old="{% elif field.oneof %}", new="{% elif field.oneof and not field.repeated %}"),
    dict(id="c02-nested-enums-dropped", prop="C02", kind="mutant", file=T + "_message.py.j2",
         old="{% for enum in message.nested_enums.values() %}", new="{% for enum in [] %}"),
    dict(id="c02-map-value-type", prop="C02", kind="mutant", file=T + "_message.py.j2",
         old="{{ p }}.{{ value_field.proto_type }},", new="{{ p }}.{{ key_field.proto_type }},"),
    dict(id="c02-twin-rename-loopvar", prop="C02", kind="twin", file=T + "_enum.py.j2",
         old="    {% for enum_value in enum.values %}\n    {{ enum_value.name }} = {{ enum_value.number }}\n    {% endfor %}",
         new="    {% for ev in enum.values %}\n    {{ ev.name }} = {{ ev.number }}\n    {% endfor %}"),
    dict(id="c02-twin-with-alias", prop="C02", kind="twin", file=T + "_message.py.j2",
         old="        number={{ field.number }},\n    {% if field.proto3_optional %}",
         new="        {% with num = field.number %}number={{ num }},{% endwith %}\n    {% if field.proto3_optional %}"),
    # ---------------- C03
    dict(id="c03-serializer-swapped", prop="C03", kind="mutant", file=S + "transports/grpc_asyncio.py.j2",
         old="request_serializer={{ method.input.ident }}", new="request_serializer={{ method.output.ident }}"),
    dict(id="c03-await-guard", prop="C03", kind="mutant", file=S + "async_client.py.j2",
         old="{% if not method.server_streaming %}await {% endif %}rpc(", new="{% if not method.client_streaming %}await {% endif %}rpc("),
    dict(id="c03-retry-dropped", prop="C03", kind="mutant", file=S + "_client_macros.j2",
         old="            retry=retry,\n            timeout=timeout,\n            metadata=metadata,\n        )\n        {% if method.lro %}",
         new="            timeout=timeout,\n            metadata=metadata,\n        )\n        {% if method.lro %}"),
    dict(id="c03-path-client-name", prop="C03", kind="mutant", file=S + "transports/grpc.py.j2",
         old="/{{ method.name }}',", new="/{{ method.client_method_name }}',"),
    dict(id="c03-stub-type", prop="C03", kind="mutant", file="schema/wrappers.py",
         old='server="stream" if self.server_streaming else "unary"', new='server="stream" if self.client_streaming else "unary"'),
    dict(id="c03-twin-rename-local", prop="C03", kind="twin", file="schema/wrappers.py",
         old='        name = self.name + "_" if self.name.lower() in keyword.kwlist else self.name\n        return make_private(name) if self.is_internal else name',
         new='        safe = self.name + "_" if self.name.lower() in keyword.kwlist else self.name\n        return make_private(safe) if self.is_internal else safe'),
    # ---------------- C04
    dict(id="c04-alt-guard", prop="C04", kind="mutant", file=S + "transports/rest_base.py.j2",
         old="            {% if opts.rest_numeric_enums %}\n            query_params", new="            {% if not opts.rest_numeric_enums %}\n            query_params"),
    dict(id="c04-ignore-unknown", prop="C04", kind="mutant", file=S + "transports/rest.py.j2",
         old="            json_format.Parse(response.content, pb_resp, ignore_unknown_fields=True)", new="            json_format.Parse(response.content, pb_resp)"),
    dict(id="c04-body-star", prop="C04", kind="mutant", file=S + "_shared_macros.j2",
         old="        {% if rule.body %}\n        'body': '{{ rule.body }}',", new="        {% if rule.body and rule.body != '*' %}\n        'body': '{{ rule.body }}',"),
    dict(id="c04-greedy", prop="C04", kind="mutant", file="schema/wrappers.py",
         old='pattern = r"\\{(\\w+)(?:=.+?)?\\}"', new='pattern = r"\\{(\\w+)(?:=.+)?\\}"'),
    # ---------------- C05
    dict(id="c05-any", prop="C05", kind="mutant", file=S + "_client_macros.j2",
         old="has_flattened_params = len([param for param in flattened_params if param is not None]) > 0", new="has_flattened_params = any(flattened_params)"),
    dict(id="c05-assign-truthy", prop="C05", kind="mutant", file=S + "_client_macros.j2",
         old="            if {{ field.name }} is not None:\n                {# Repeated", new="            if {{ field.name }}:\n                {# Repeated"),
    dict(id="c05-async-map-dropped", prop="C05", kind="mutant", file=S + "async_client.py.j2",
         old="if field.map and method.input.ident.package == method.ident.package", new="if field.map and field.repeated and method.input.ident.package != method.ident.package"),
    dict(id="c05-twin-idiom", prop="C05", kind="twin", file=S + "async_client.py.j2",
         old="has_flattened_params = len([param for param in flattened_params if param is not None]) > 0", new="has_flattened_params = any(p is not None for p in flattened_params)"),
    # ---------------- C06
    dict(id="c06-reverse", prop="C06", kind="mutant", file=S + "_shared_macros.j2",
         old="{% for routing_param in method.routing_rule.routing_parameters %}", new="{% for routing_param in method.routing_rule.routing_parameters|reverse %}"),
    dict(id="c06-wire-key", prop="C06", kind="mutant", file=S + "_shared_macros.j2",
         old='("{{ field_header.raw }}", request.{{ field_header.disambiguated }}),', new='("{{ field_header.disambiguated }}", request.{{ field_header.disambiguated }}),'),
    dict(id="c06-verb-order", prop="C06", kind="mutant", file="schema/wrappers.py",
         old="            http.put,\n            http.post,", new="            http.post,\n            http.put,"),
    dict(id="c06-always-append", prop="C06", kind="mutant", file=S + "_shared_macros.j2",
         old="        if header_params:\n            metadata", new="        if True:\n            metadata"),
    # ---------------- C07
    dict(id="c07-token-not-stored", prop="C07", kind="mutant", file=S + "pagers.py.j2",
         old="            self._request.page_token = self._response.next_page_token\n            self._response = self._method(", new="            self._response = self._method("),
    dict(id="c07-metadata-dropped", prop="C07", kind="mutant", file=S + "pagers.py.j2",
         old="self._response = await self._method(self._request, retry=self._retry, timeout=self._timeout, metadata=self._metadata)",
         new="self._response = await self._method(self._request, retry=self._retry, timeout=self._timeout)"),
    dict(id="c07-twin-unrolled", prop="C07", kind="twin", file="schema/wrappers.py",
         old='''        for source, source_type, name in (
            (self.input, str, "page_token"),
            (self.output, str, "next_page_token"),
        ):
            field = source.fields.get(name, None)
            if not field or field.type != source_type:
                return None
''',
         new='''        page_token = self.input.fields.get("page_token", None)
        if not page_token or page_token.type != str:
            return None

        next_page_token = self.output.fields.get("next_page_token", None)
        if not next_page_token or next_page_token.type != str:
            return None
'''),
    # ---------------- C08
    dict(id="c08-types-swapped", prop="C08", kind="mutant", file=S + "async_client.py.j2",
         old="            {{ method.lro.response_type.ident }},\n            metadata_type={{ method.lro.metadata_type.ident }},",
         new="            {{ method.lro.metadata_type.ident }},\n            metadata_type={{ method.lro.response_type.ident }},"),
    dict(id="c08-and", prop="C08", kind="mutant", file="schema/api.py",
         old="if not op.response_type or not op.metadata_type:", new="if not op.response_type and not op.metadata_type:"),
    dict(id="c08-prior-protos", prop="C08", kind="mutant", file="schema/api.py",
         old="                prior_protos=pre_protos,\n                all_resources", new="                prior_protos=prior_protos or {},\n                all_resources"),
    dict(id="c08-own-channel", prop="C08", kind="mutant", file=S + "transports/grpc.py.j2",
         old="            self._operations_client = operations_v1.OperationsClient(\n                self._logged_channel\n            )",
         new="            self._operations_client = operations_v1.OperationsClient(\n                self.create_channel(self._host)\n            )"),
    # ---------------- C09
    dict(id="c09-deadline", prop="C09", kind="mutant", file=S + "transports/base.py.j2",
         old="deadline={{ method.timeout }},", new="deadline={{ method.retry.max_backoff }},"),
    dict(id="c09-async-maximum", prop="C09", kind="mutant", file=S + "_shared_macros.j2",
         old="maximum={{ method.retry.max_backoff }},", new="maximum={{ method.retry.initial_backoff }},"),
    dict(id="c09-key-table", prop="C09", kind="mutant", file="schema/api.py",
         old='max_backoff=self._to_float(r.get("maxBackoff", "0s")),', new='max_backoff=self._to_float(r.get("initialBackoff", "0s")),'),
    dict(id="c09-selector", prop="C09", kind="mutant", file="schema/api.py",
         old='if selector in c.get("name")', new='if selector["service"] in str(c.get("name"))'),
    dict(id="c09-nanos", prop="C09", kind="mutant", file="schema/api.py",
         old='return int(s[:-1]) / 1e9 if s.endswith("n") else float(s[:-1])', new='return int(s[:-1]) / 1e6 if s.endswith("n") else float(s[:-1])'),
    dict(id="c09-twin-kwarg-order", prop="C09", kind="twin", file=S + "transports/base.py.j2",
         old="                default_timeout={{ method.timeout }},\n                client_info=client_info,\n            ),\n            {% endfor %}{# method in service.methods.values() #}",
         new="                client_info=client_info,\n                default_timeout={{ method.timeout }},\n            ),\n            {% endfor %}{# method in service.methods.values() #}"),
    # ---------------- C10
    dict(id="c10-sort-dropped", prop="C10", kind="mutant", file=S + "client.py.j2",
         old='{% for message in service.resource_messages|sort(attribute="resource_type,resource_type_full_path") %}', new="{% for message in service.resource_messages %}"),
    dict(id="c10-short-key", prop="C10", kind="mutant", file=S + "async_client.py.j2",
         old='service.resource_messages|sort(attribute="resource_type,resource_type_full_path")', new='service.resource_messages|sort(attribute="resource_type")'),
    dict(id="c10-clock", prop="C10", kind="mutant", file="schema/wrappers.py",
         old='        return self.name + "Transport"', new='        import time\n        return self.name + "Transport" + str(time.time())[:0]'),
    dict(id="c10-sort-keys", prop="C10", kind="mutant", file="schema/api.py",
         old="return MessageToJson(self.gapic_metadata(options), sort_keys=True)", new="return MessageToJson(self.gapic_metadata(options))"),
    dict(id="c10-unsorted-subpackages", prop="C10", kind="mutant", file="schema/api.py",
         old="        for subpkg_name in sorted(\n            {", new="        for subpkg_name in list(\n            {"),
    # ---------------- C11
    dict(id="c11-replace-order", prop="C11", kind="mutant", file="generator/generator.py",
         old='''        filename = filename.replace(
            "%name_%version", api_schema.naming.versioned_module_name
        )
        filename = filename.replace("%version", api_schema.naming.version)
        filename = filename.replace("%name", api_schema.naming.module_name)''',
         new='''        filename = filename.replace("%name", api_schema.naming.module_name)
        filename = filename.replace(
            "%name_%version", api_schema.naming.versioned_module_name
        )
        filename = filename.replace("%version", api_schema.naming.version)'''),
    dict(id="c11-private-skip", prop="C11", kind="mutant", file="generator/generator.py",
         old='if filename.startswith("_") and filename != "__init__.py.j2":', new='if filename.startswith("__") and filename != "__init__.py.j2":'),
    dict(id="c11-split", prop="C11", kind="mutant", file="utils/options.py",
         old='opt, value = opt.split("=", 1)', new='opt, value = opt.split("=")'),
    # ---------------- C12
    dict(id="c12-raw-routing-attr", prop="C12", kind="mutant", file=S + "_shared_macros.j2",
         old="        if request.{{ routing_param.disambiguated_field }}:", new="        if request.{{ routing_param.field }}:"),
    dict(id="c12-double-underscore", prop="C12", kind="mutant", file="schema/wrappers.py",
         old='            segment + "_" if segment in utils.RESERVED_NAMES else segment\n            for segment in self.raw.split(".")', new='            segment + "__" if segment in utils.RESERVED_NAMES else segment\n            for segment in self.raw.split(".")'),
    # ---------------- C14
    dict(id="c14-marker", prop="C14", kind="mutant", file="templates/examples/feature_fragments.j2",
         old="# Make the request\n{% if calling_form in", new="# Make the call\n{% if calling_form in"),
    dict(id="c14-async-embeds-sync", prop="C14", kind="mutant", file=S + "async_client.py.j2",
         old="snippet_index.get_snippet(service.name, method.name, sync=False)", new="snippet_index.get_snippet(service.name, method.name, sync=True)"),
    dict(id="c14-tag-order", prop="C14", kind="mutant", file="samplegen/samplegen.py",
         old='region_tag = f"{api_short_name}_{api_version}_generated_{service_name}_{rpc_name}_{sync_or_async}"',
         new='region_tag = f"{api_short_name}_{api_version}_generated_{service_name}_{sync_or_async}_{rpc_name}"'),
    # ---------------- C15
    dict(id="c15-async-class", prop="C15", kind="mutant", file="schema/api.py",
         old="transports.append((TRANSPORT_GRPC_ASYNC, service.async_client_name))", new="transports.append((TRANSPORT_GRPC_ASYNC, service.client_name))"),
    dict(id="c15-partition", prop="C15", kind="mutant", file="utils/code.py", old="return results[1], results[0]", new="return results[0], results[1]"),
    dict(id="c15-fixup-filter", prop="C15", kind="mutant", file="templates/scripts/fixup_%name_%version_keywords.py.j2",
         old="{% for field in method.legacy_flattened_fields.values() %}", new="{% for field in method.legacy_flattened_fields.values() if not field.oneof %}"),
    # ---------------- C16
    dict(id="c16-nested-enums", prop="C16", kind="mutant", file="schema/wrappers.py",
         old="            for enum in self.nested_enums.values():\n                enum.add_to_address_allowlist(\n                    address_allowlist=address_allowlist,\n                )\n", new=""),
    dict(id="c16-prune-extra", prop="C16", kind="mutant", file="schema/api.py",
         old="k: v for k, v in self.all_enums.items() if v.ident in address_allowlist", new="k: v for k, v in self.all_enums.items() if v.ident in address_allowlist or not v.ident.parent"),
    # ---------------- C17
    dict(id="c17-routing-field", prop="C17", kind="mutant", file=S + "_async_mixins.py.j2",
         old='(("resource", request.resource),)),', new='(("name", request.resource),)),'),
    dict(id="c17-path", prop="C17", kind="mutant", file=S + "transports/_mixins.py.j2",
         old='"/google.cloud.location.Locations/GetLocation",', new='"/google.cloud.location.Locations/ListLocations",'),
    # ---------------- C18
    dict(id="c18-presence", prop="C18", kind="mutant", file=S + "_shared_macros.j2",
         old="        if '{{ auto_populated_field }}' not in request:", new="        if not request.{{ auto_populated_field }}:"),
    dict(id="c18-required", prop="C18", kind="mutant", file="schema/api.py", old="                        if field.required:", new="                        if field.required and False:"),
    dict(id="c18-async-not-populated", prop="C18", kind="mutant", file=S + "async_client.py.j2",
         old="{{ shared_macros.auto_populate_uuid4_fields(api, method) }}\n\n        # Validate the universe domain.\n        self._client._validate_universe_domain()\n",
         new="\n        # Validate the universe domain.\n        self._client._validate_universe_domain()\n"),
    # ---------------- C19
    dict(id="c19-segment-class", prop="C19", kind="mutant", file="schema/wrappers.py",
         old='"(?P<{name}>.+?)".format(name=part) if i % 2 else re.escape(part)', new='"(?P<{name}>[^/]+)".format(name=part) if i % 2 else re.escape(part)'),
    dict(id="c19-literal-unescaped", prop="C19", kind="mutant", file="schema/wrappers.py",
         old='"(?P<{name}>.+?)".format(name=part) if i % 2 else re.escape(part)', new='"(?P<{name}>.+?)".format(name=part) if i % 2 else part'),
    dict(id="c19-twin-parity-reversed", prop="C19", kind="twin", file="schema/wrappers.py",
         old='"(?P<{name}>.+?)".format(name=part) if i % 2 else re.escape(part)', new='re.escape(part) if i % 2 == 0 else "(?P<{name}>.+?)".format(name=part)'),
    dict(id="c19-format-string", prop="C19", kind="mutant", file=S + "client.py.j2",
         old='return "{{ message.resource_path_formatted }}".format(', new='return "{{ message.resource_path }}".format('),
    # ---------------- C20
    dict(id="c20-break-words", prop="C20", kind="mutant", file="utils/lines.py", old="            break_long_words=False,", new="            break_long_words=True,"),
    dict(id="c20-eats-token", prop="C20", kind="mutant", file="generator/formatter.py",
         old='code = re.sub(r"\\s+\\n\\s*\\n((    )+)(\\w|_|@|#)", r"\\n\\n\\1\\3", code)', new='code = re.sub(r"\\s+\\n\\s*\\n((    )+)(\\w|_|@|#)", r"\\n\\n\\1", code)'),
    dict(id="c20-nonraw", prop="C20", kind="mutant", file=S + "client.py.j2",
         old='    r"""{{ service.meta.doc|rst(width=72, indent=4) }}', new='    """{{ service.meta.doc|rst(width=72, indent=4) }}'),
    # ---------------- C01 (a few; the seeds cover more)
    dict(id="c01-import-uuid-guard", prop="C01", kind="mutant", file=S + "client.py.j2",
         old='{% if api.all_method_settings.values()|map(attribute="auto_populated_fields", default=[])|list %}\nimport uuid',
         new='{% if api.all_method_settings.values()|map(attribute="auto_populated_fields", default=[])|list and service.has_lro %}\nimport uuid'),
    dict(id="c01-bad-attr", prop="C01", kind="mutant", file=S + "transports/base.py.j2",
         old="                default_timeout={{ method.timeout }},", new="                default_timeout={{ method.default_timeout }},"),
    dict(id="c01-registry-order", prop="C01", kind="mutant", file=S + "client.py.j2",
         old='''    {% if "grpc" in opts.transport %}
    _transport_registry["grpc"] = {{ service.grpc_transport_name }}
    _transport_registry["grpc_asyncio"] = {{ service.grpc_asyncio_transport_name }}
    {% endif %}
    {% if "rest" in opts.transport %}
    _transport_registry["rest"] = {{ service.name }}RestTransport''',
         new='''    {% if "rest" in opts.transport %}
    _transport_registry["rest"] = {{ service.name }}RestTransport
    {% endif %}
    {% if "grpc" in opts.transport %}
    _transport_registry["grpc"] = {{ service.grpc_transport_name }}
    _transport_registry["grpc_asyncio"] = {{ service.grpc_asyncio_transport_name }}
    {% endif %}
    {% if "rest" in opts.transport %}'''),
    # ---------------- twins run against every check
    dict(id="twin-comment-in-macro", prop="*", kind="twin", file=S + "_client_macros.j2",
         old="        # Send the request.\n", new="        # Send the request.\n        {# nothing to see here #}\n"),
    dict(id="twin-rename-macro-param", prop="*", kind="twin", file=S + "_shared_macros.j2",
         old="{% macro add_api_version_header_to_metadata(service_version) %}", new="{% macro add_api_version_header_to_metadata(service_version) %}{# twin #}"),
    dict(id="twin-python-comment", prop="*", kind="twin", file="schema/wrappers.py",
         old="    def grpc_stub_type(self) -> str:", new="    # twin: comment only\n    def grpc_stub_type(self) -> str:"),

    # ---------------- more behaviour-preserving twins, run against every check
    dict(id="twin-rename-loopvar-client-macro", prop="*", kind="twin", file=S + "_client_macros.j2",
         old="""            {% for field in method.flattened_fields.values() %}
            {{ field.name }}: Optional[{{ field.ident }}] = None,
            {% endfor %}""",
         new="""            {% for fld in method.flattened_fields.values() %}
            {{ fld.name }}: Optional[{{ fld.ident }}] = None,
            {% endfor %}"""),
    dict(id="twin-merge-nested-if", prop="*", kind="twin", file=S + "transports/base.py.j2",
         old="    {% if api.has_operations_mixin %}\n    {% if \"ListOperations\" in api.mixin_api_methods %}",
         new="    {% if api.has_operations_mixin %}{# twin #}\n    {% if \"ListOperations\" in api.mixin_api_methods %}"),
    dict(id="twin-docstring-text", prop="*", kind="twin", file=S + "pagers.py.j2",
         old="        \"\"\"Instantiate the pager.", new="        \"\"\"Create the pager."),
    dict(id="twin-new-unrelated-property", prop="*", kind="twin", file="schema/wrappers.py",
         old="    @property\n    def grpc_stub_type(self) -> str:",
         new="    @property\n    def is_unary(self) -> bool:\n        return not (self.client_streaming or self.server_streaming)\n\n    @property\n    def grpc_stub_type(self) -> str:"),
    dict(id="twin-with-block-around-call", prop="*", kind="twin", file=S + "_client_macros.j2",
         old="        rpc = self._transport._wrapped_methods[self._transport.{{ method.transport_safe_name|snake_case}}]",
         new="        {% with m = method %}\n        rpc = self._transport._wrapped_methods[self._transport.{{ m.transport_safe_name|snake_case}}]\n        {% endwith %}"),
    dict(id="twin-python-rename-local-retry", prop="*", kind="twin", file="schema/api.py",
         old="""            mc = next(
                (
                    c
                    for c in self.opts.retry.get("methodConfig", [])
                    if selector in c.get("name")
                ),
                None,
            )
            if mc:
                # Set the timeout according to this method config.
                if mc.get("timeout"):
                    timeout = self._to_float(mc["timeout"])

                # Set the retry according to this method config.
                if "retryPolicy" in mc:
                    r = mc["retryPolicy"]""",
         new="""            entry = next(
                (
                    cfg
                    for cfg in self.opts.retry.get("methodConfig", [])
                    if selector in cfg.get("name")
                ),
                None,
            )
            if entry:
                # Set the timeout according to this method config.
                if entry.get("timeout"):
                    timeout = self._to_float(entry["timeout"])

                # Set the retry according to this method config.
                if "retryPolicy" in entry:
                    r = entry["retryPolicy"]"""),
    dict(id="twin-blank-lines-and-comments-templates", prop="*", kind="twin", file=S + "transports/grpc.py.j2",
         old="        # Generate a \"stub function\" on-the-fly which will actually make\n        # the request.\n        # gRPC handles serialization and deserialization, so we just need\n        # to pass in the functions for each.\n        if '{{ method.transport_safe_name|snake_case }}' not in self._stubs:",
         new="        # Create the stub lazily.\n\n        if '{{ method.transport_safe_name|snake_case }}' not in self._stubs:"),
    dict(id="twin-set-alias-in-template", prop="*", kind="twin", file=S + "transports/rest_base.py.j2",
         old="        {% set body_spec = method.http_options[0].body %}\n        {%- if body_spec %}",
         new="        {% set primary = method.http_options[0] %}{% set body_spec = primary.body %}\n        {%- if body_spec %}"),
    dict(id="twin-reorder-independent-python-statements", prop="*", kind="twin", file="schema/wrappers.py",
         old="        retry = None\n        timeout = None\n" if False else "        pb_type = page_field_size.type\n",
         new="        pb_type = page_field_size.type  # the declared type\n"),
    # ---------------- rules added after seeding round 2
    dict(id="c07-loader-reverses-fields", prop="C07", kind="mutant", also=["C02"], file="schema/api.py",
         old="        for i, field_pb in enumerate(field_pbs):", new="        for i, field_pb in reversed(list(enumerate(field_pbs))):"),
    dict(id="c10-last-wins-short-type", prop="C10", kind="mutant", file="schema/wrappers.py",
         old="            r.resource_type_full_path: r for r in self.resource_messages\n", new="            r.resource_type: r for r in self.resource_messages\n"),
    dict(id="c12-camel-split-misses-underscore", prop="C12", kind="mutant", file="utils/case.py",
         old='items = re.split(r"[_-]", to_snake_case(s))', new='items = re.split(r"[-]|_(?=.)", to_snake_case(s))'),
    dict(id="c12-names-map-per-message", prop="C12", kind="mutant", file="schema/api.py",
         old="        modules: Dict[str, Set[str]] = collections.defaultdict(set)\n        for m in self.all_messages.values():\n            for t in m.recursive_field_types:",
         new="        for m in self.all_messages.values():\n            modules: Dict[str, Set[str]] = collections.defaultdict(set)\n            for t in m.recursive_field_types:"),
    dict(id="c20-wrap-colon-sub-three-newlines", prop="C20", kind="mutant", file="utils/lines.py",
         old='text = re.sub(r":\\n([^\\n])", r":\\n\\n\\1", text)', new='text = re.sub(r":\\n([^\\n])", r":\\n\\n\\n\\1", text)'),
    dict(id="c14-lint-unused-comprehension-var", prop="C14", kind="mutant", file="samplegen/samplegen.py",
         old="witness = any(e.name in val for e in attr.enum.values)", new="witness = any(attr.name in val for e in attr.enum.values)"),
    dict(id="twin-lint-legit-search-loop", prop="*", kind="twin", file="samplegen/samplegen.py",
         old="def _supports_grpc(service) -> bool:",
         new="def _longest(entries):\n    best = None\n    for e in entries:\n        parts = []\n        for p in e.split(\".\"):\n            parts.append(p)\n"
             "        if best is None or len(parts) > len(best):\n            best = parts\n    return best\n\n\ndef _supports_grpc(service) -> bool:"),
    dict(id="twin-proto-names-rename-locals", prop="*", kind="twin", file="schema/api.py",
         old="        modules: Dict[str, Set[str]] = collections.defaultdict(set)\n        for m in self.all_messages.values():\n            for t in m.recursive_field_types:\n                modules[t.ident.module].add(t.ident.package)\n\n        answer.update(\n            module_name\n            for module_name, packages in modules.items()",
         new="        pkgs_of: Dict[str, Set[str]] = collections.defaultdict(set)\n        for msg in self.all_messages.values():\n            for ftype in msg.recursive_field_types:\n                pkgs_of[ftype.ident.module].add(ftype.ident.package)\n\n        answer.update(\n            module_name\n            for module_name, packages in pkgs_of.items()"),
    dict(id="twin-camel-case-rename-local", prop="*", kind="twin", file="utils/case.py",
         old='    items = re.split(r"[_-]", to_snake_case(s))\n    return items[0].lower() + "".join(x.capitalize() for x in items[1:])',
         new='    words = re.split(r"[_-]", to_snake_case(s))\n    return words[0].lower() + "".join(w.capitalize() for w in words[1:])'),
    dict(id="c01-sub-init-unfiltered-types", prop="C01", kind="mutant", file="templates/%namespace/%name_%version/%sub/__init__.py.j2",
         old="{% for proto in api.protos.values()|sort(attribute='name')\n        if proto.meta.address.subpackage == api.subpackage_view %}\n{% for message in proto.messages.values()|sort(attribute='name') %}\nfrom .types",
         new="{% for proto in api.protos.values()|sort(attribute='name') %}\n{% for message in proto.messages.values()|sort(attribute='name') %}\nfrom .types"),
    dict(id="c14-new-root-package-selector", prop="C14", kind="mutant", file="samplegen/samplegen.py",
         old='    service = api_schema.services[sample["service"]]\n    method = service.methods[sample["rpc"]]\n    async_ =',
         new='    service = api_schema.services[f"{api_schema.naming.proto_package}.{sample[\'service\'].rsplit(\'.\', 1)[-1]}"]\n    method = service.methods[sample["rpc"]]\n    async_ ='),
    dict(id="twin-routing-delegates-to-fieldheader", prop="*", kind="twin", file="schema/wrappers.py",
         old='        return ".".join(\n            segment + "_" if segment in utils.RESERVED_NAMES else segment\n            for segment in self.field.split(".")\n        )',
         new='        return FieldHeader(self.field).disambiguated'),
    dict(id="c12-fieldheader-whole-string", prop="C12", kind="mutant", also=["C06"], file="schema/wrappers.py",
         old='        return ".".join(\n            segment + "_" if segment in utils.RESERVED_NAMES else segment\n            for segment in self.raw.split(".")\n        )',
         new='        return self.raw + "_" if self.raw in utils.RESERVED_NAMES else self.raw'),
    dict(id="twin-formatter-precompiled-patterns", prop="*", kind="twin", file="generator/formatter.py",
         edits=[('def fix_whitespace(code: str) -> str:', '_TRAILING = re.compile(r"[ ]+\\n")\n\n\ndef fix_whitespace(code: str) -> str:'),
                ('    code = re.sub(r"[ ]+\\n", "\\n", code)', '    code = _TRAILING.sub("\\n", code)')]),
    # ---------------- round 4 additions (rules added after seeds C..d and the agents' side findings O-28 / O-29)
    dict(id="c04-o28-reverted", prop="C04", kind="mutant", file="schema/wrappers.py",
         old="""        return {
            name
            for name, field in self.input.fields.items()
            if field.field_pb.name not in params
        }""", new="        return set(self.input.fields) - params"),
    dict(id="c04-twin-query-params-loop", prop="C04", kind="twin", file="schema/wrappers.py",
         old="""        return {
            name
            for name, field in self.input.fields.items()
            if field.field_pb.name not in params
        }""", new="""        unbound = set()
        for py_name, fld in self.input.fields.items():
            if fld.field_pb.name in params:
                continue
            unbound.add(py_name)
        return unbound"""),
    dict(id="c05-o29-reverted-get-field", prop="C05", kind="mutant", file="schema/wrappers.py",
         old="""                if first_field in utils.RESERVED_NAMES
                and self.meta.address.is_proto_plus_type
                else \"\"""", new="""                if first_field in utils.RESERVED_NAMES
                else \"\""""),
    dict(id="c12-o29-reverted-key", prop="C12", kind="mutant", file="schema/wrappers.py",
         old="""                    if field.field_pb.name in utils.RESERVED_NAMES
                    and field.meta.address.is_proto_plus_type
                    else \"\"""", new="""                    if field.field_pb.name in utils.RESERVED_NAMES
                    else \"\""""),
    dict(id="c16-twin-early-return-superset", prop="C16", kind="twin", file="schema/wrappers.py",
         old="""        return dataclasses.replace(
            self,
            methods={
                k: v.with_internal_methods(public_methods=public_methods)""",
         new="""        if public_methods.issuperset(m.ident.proto for m in self.methods.values()):
            return self
        return dataclasses.replace(
            self,
            methods={
                k: v.with_internal_methods(public_methods=public_methods)"""),
    dict(id="c16-early-return-any", prop="C16", kind="mutant", file="schema/wrappers.py",
         old="""        return dataclasses.replace(
            self,
            methods={
                k: v.with_internal_methods(public_methods=public_methods)""",
         new="""        if any(m.ident.proto in public_methods for m in self.methods.values()):
            return self
        return dataclasses.replace(
            self,
            methods={
                k: v.with_internal_methods(public_methods=public_methods)"""),
    dict(id="c19-aggregate-first-only", prop="C19", kind="mutant", file="schema/api.py",
         old="            *(proto.resource_messages for proto in pre_protos.values())\n        )\n\n        # Second pass",
         new="            *(proto.resource_messages for proto in pre_protos.values() if proto.services)\n        )\n\n        # Second pass"),
    dict(id="c03-stub-cache-conditional", prop="C03", kind="mutant", file=S + "transports/grpc.py.j2",
         old="        self._stubs: Dict[str, Callable] = {}\n", new="        if channel is None:\n            self._stubs: Dict[str, Callable] = {}\n"),
    dict(id="c03-twin-stub-cache-dict-call", prop="C03", kind="twin", file=S + "transports/grpc.py.j2",
         old="        self._stubs: Dict[str, Callable] = {}\n", new="        self._stubs: Dict[str, Callable] = dict()\n"),
    dict(id="c18-twin-populate-comment", prop="C18", kind="twin", file=S + "_client_macros.j2",
         old="{{ shared_macros.auto_populate_uuid4_fields(api, method) }}", new="{# request ids #}\n{{ shared_macros.auto_populate_uuid4_fields(api, method) }}"),
]
